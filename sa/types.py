"""Repository-specific nominal type inference and call resolution.

Types are frozensets of *atoms* (hashable tuples):

  ("inst", Class)        instance of a repo class
  ("cls", Class)         the class object
  ("func", qual)         repo function
  ("bound", qual)        bound method of a repo class
  ("lambda", id)         lambda expression (registry in Resolver.lambdas)
  ("list", T)            homogeneous container with element type T
  ("tuple", (T, ...))    tuple
  ("dict", T)            mapping with value type T
  ("ext", kind)          external value of a semantic kind, see EXT_KINDS
  ("extmeth", name)      method of an external value
  ("extfunc", dotted)    external function / class
  ("module", name) / ("extmodule", name)

User code is modelled as types: the parameters ``fun`` and ``callback`` of
``minimize`` are ``("ext","UserFn")``, the constraint objects are
``UserNLC`` / ``UserLC`` / ``UserDictC``; scipy's ``PreparedConstraint`` of a
nonlinear constraint is ``PreparedNL`` whose ``.violation`` and ``.fun.fun``
call user code.  A *sink* is any call that may run user code.

The inference is flow-insensitive per function and iterated to a fixed point
over the whole package (parameter types come from call sites, attribute types
from stores, return types from return statements, numpydoc types as an extra
source).
"""
from __future__ import annotations

import ast
import re
from collections import namedtuple

from .loader import AnalysisError

EMPTY = frozenset()

USERFN = ("ext", "UserFn")
USERCB = ("ext", "UserCb")
USERCONFN = ("ext", "UserConFn")
USER_CALLABLES = (USERFN, USERCB, USERCONFN)
USERNLC = ("ext", "UserNLC")
USERLC = ("ext", "UserLC")
USERDICT = ("ext", "UserDictC")
USERBOUNDS = ("ext", "UserBounds")
PREP_NL = ("ext", "PreparedNL")
PREP_LIN = ("ext", "PreparedLin")
PREP_BND = ("ext", "PreparedBnd")
PREP_UNK = ("ext", "PreparedUnknown")
VECFUN_NL = ("ext", "VecFunNL")
LINC = ("ext", "LinC")
BOUNDSOBJ = ("ext", "BoundsObj")
OPTRESULT = ("ext", "OptimizeResult")

# seeds: parameters of the public entry point
SEEDS = {
    ("cobyqa.main:minimize", "fun"): frozenset({USERFN}),
    ("cobyqa.main:minimize", "callback"): frozenset({USERCB}),
    ("cobyqa.main:minimize", "bounds"): frozenset({USERBOUNDS}),
    ("cobyqa.main:minimize", "constraints"): frozenset(
        {
            USERNLC,
            USERLC,
            USERDICT,
            ("list", frozenset({USERNLC, USERLC, USERDICT})),
        }
    ),
}

# external callables to which a user callable may be handed without being run
USERFN_SAFE_EXT = {
    "callable", "isinstance", "hasattr", "getattr", "id", "type", "repr", "str",
    "inspect.signature", "signature", "copy.copy", "copy.deepcopy",
    "scipy.optimize.NonlinearConstraint", "scipy.optimize.LinearConstraint",
    "len", "print", "bool", "dict", "list", "tuple", "enumerate", "zip",
    "scipy.optimize._constraints.PreparedConstraint",  # classified separately
    "contextlib.suppress", "warnings.warn",
}

BUILTINS = {
    "len", "range", "enumerate", "zip", "list", "tuple", "dict", "set", "int",
    "float", "bool", "str", "max", "min", "abs", "all", "any", "sum", "print",
    "isinstance", "hasattr", "getattr", "callable", "reversed", "sorted",
    "iter", "next", "repr", "id", "type", "super", "map", "filter", "round",
    "divmod", "pow", "hash", "vars", "setattr", "frozenset", "slice", "object",
    "ValueError", "TypeError", "AttributeError", "StopIteration", "Exception",
    "ZeroDivisionError", "RuntimeWarning", "RuntimeError", "IndexError",
    "KeyError", "AssertionError", "NotImplementedError", "ArithmeticError",
    "FloatingPointError", "OverflowError", "UserWarning", "Warning",
    "BaseException", "KeyboardInterrupt", "open", "input", "exec", "eval",
    "compile", "globals", "locals", "memoryview", "bytearray", "bytes",
    "complex", "format", "chr", "ord", "bin", "hex", "oct", "issubclass",
    "staticmethod", "classmethod", "property", "delattr", "dir",
}

Target = namedtuple("Target", "kind name func detail")
# kind: repo | sink | ext | builtin | lambda | unknown | listmeth


def _depth(atom, d=0):
    if atom[0] in ("list", "dict"):
        return max([_depth(a, d + 1) for a in atom[1]] + [d + 1])
    if atom[0] == "tuple":
        return max([_depth(a, d + 1) for t in atom[1] for a in t] + [d + 1])
    return d


def mk(*atoms):
    return frozenset(atoms)


def elem(t):
    out = set()
    for a in t:
        if a[0] in ("list", "dict"):
            out |= a[1]
        elif a[0] == "tuple":
            for e in a[1]:
                out |= e
    return frozenset(out)


def clip_depth(t):
    return frozenset(a for a in t if _depth(a) <= 3)


class Resolver:
    def __init__(self, repo, seeds=None, max_iter=15):
        self.repo = repo
        self.attr_types = {}
        self.ret = {}
        self.ptypes = dict(seeds if seeds is not None else SEEDS)
        self.envs = {}
        self.lambdas = {}
        self._doc_ptypes()
        self.iterations = 0
        self._final = False
        for i in range(max_iter):
            self.iterations = i + 1
            self._changed = False
            for f in list(repo.funcs.values()):
                self._infer_func(f)
            if not self._changed:
                break
        # final rounds: values whose kind is still unknown become explicit
        # "unknown" kinds (fail closed) and are propagated
        self._final = True
        for i in range(max_iter):
            self._changed = False
            for f in list(repo.funcs.values()):
                self._infer_func(f)
            if not self._changed:
                break
        self._call_cache = {}

    # -- numpydoc -----------------------------------------------------
    def _doc_ptypes(self):
        names = sorted(self.repo.classes, key=len, reverse=True)
        pat = re.compile(r"^\s*(\w+)\s*:\s*(.+)$")
        for f in self.repo.funcs.values():
            doc = f.docstring()
            if "Parameters" not in doc:
                continue
            section = doc.split("Parameters", 1)[1]
            for stop in ("Returns", "Raises", "Other Parameters", "Notes", "References"):
                idx = section.find("\n" + stop + "\n")
                if idx >= 0:
                    section = section[:idx]
            for line in section.splitlines():
                m = pat.match(line)
                if not m:
                    continue
                pname, ptype = m.group(1), m.group(2)
                if pname not in f.params and pname not in f.kwonly:
                    continue
                for cn in names:
                    if re.search(r"(?<![\w])" + re.escape(cn) + r"(?![\w])", ptype):
                        self._add_ptype(f.qual, pname, mk(("inst", cn)))
                        break

    # -- bookkeeping ---------------------------------------------------
    def _add(self, table, key, t):
        t = clip_depth(t)
        if not t:
            return
        old = table.get(key, EMPTY)
        new = old | t
        if new != old:
            table[key] = new
            self._changed = True

    def _add_ptype(self, qual, pname, t):
        self._add(self.ptypes, (qual, pname), t)

    # -- per-function inference ------------------------------------------
    def _infer_func(self, f):
        env = self.envs.setdefault(f.qual, {})
        # parameters
        for p in f.params + f.kwonly:
            t = self.ptypes.get((f.qual, p), EMPTY)
            if t:
                self._env_add(env, p, t)
        if f.is_method and f.params and f.kind != "classmethod":
            self._env_add(env, f.params[0], mk(("inst", f.cls.name)))
        if f.outer is not None:
            for k, v in self.envs.get(f.outer.qual, {}).items():
                if k not in f.params:
                    self._env_add(env, k, v)
        for _ in range(2):
            for node in ast.walk(f.node):
                self._infer_node(node, f, env)
        # param propagation from the calls in this function
        for node in ast.walk(f.node):
            if isinstance(node, ast.Call):
                self._propagate_call(node, f)

    def _env_add(self, env, name, t):
        t = clip_depth(t)
        if not t:
            return
        old = env.get(name, EMPTY)
        new = old | t
        if new != old:
            env[name] = new
            self._changed = True

    def _bind_target(self, target, t, f, env):
        if isinstance(target, ast.Name):
            self._env_add(env, target.id, t)
        elif isinstance(target, (ast.Tuple, ast.List)):
            tup = [a for a in t if a[0] == "tuple" and len(a[1]) == len(target.elts)]
            for i, sub in enumerate(target.elts):
                st = set()
                for a in tup:
                    st |= a[1][i]
                if not tup:
                    st |= elem(t)
                if isinstance(sub, ast.Starred):
                    sub = sub.value
                self._bind_target(sub, frozenset(st), f, env)
        elif isinstance(target, ast.Attribute):
            bt = self.type_of(target.value, f)
            for a in bt:
                if a[0] == "inst":
                    self._add(self.attr_types, (a[1], target.attr), t)
        elif isinstance(target, ast.Subscript):
            if not t:
                return
            cont = mk(("list", t))
            base = target.value
            if isinstance(base, ast.Name):
                self._env_add(env, base.id, cont)
            elif isinstance(base, ast.Attribute):
                bt = self.type_of(base.value, f)
                for a in bt:
                    if a[0] == "inst":
                        self._add(self.attr_types, (a[1], base.attr), cont)
        elif isinstance(target, ast.Starred):
            self._bind_target(target.value, t, f, env)

    def _infer_node(self, node, f, env):
        if isinstance(node, ast.Assign):
            t = self.type_of(node.value, f)
            for tgt in node.targets:
                self._bind_target(tgt, t, f, env)
        elif isinstance(node, ast.AnnAssign) and node.value is not None:
            self._bind_target(node.target, self.type_of(node.value, f), f, env)
        elif isinstance(node, ast.NamedExpr):
            self._bind_target(node.target, self.type_of(node.value, f), f, env)
        elif isinstance(node, (ast.For, ast.AsyncFor)):
            self._bind_target(node.target, elem(self.type_of(node.iter, f)), f, env)
        elif isinstance(node, ast.comprehension):
            self._bind_target(node.target, elem(self.type_of(node.iter, f)), f, env)
        elif isinstance(node, ast.With):
            for item in node.items:
                if item.optional_vars is not None:
                    self._bind_target(
                        item.optional_vars, self.type_of(item.context_expr, f), f, env
                    )
        elif isinstance(node, ast.Return) and node.value is not None:
            if self._owner(node) is f.node:
                self._add(self.ret, f.qual, self.type_of(node.value, f))
        elif isinstance(node, ast.Call):
            fn = node.func
            if isinstance(fn, ast.Attribute) and fn.attr in ("append", "add", "insert", "extend") and node.args:
                arg = node.args[-1]
                t = self.type_of(arg, f)
                if fn.attr == "extend":
                    t = elem(t)
                if t:
                    self._bind_target(
                        ast.Subscript(value=fn.value, slice=ast.Constant(0), ctx=ast.Store()),
                        t, f, env,
                    )
        elif isinstance(node, ast.Lambda):
            self.lambdas[id(node)] = (node, f)

    @staticmethod
    def _owner(node):
        p = getattr(node, "_parent", None)
        while p is not None and not isinstance(p, (ast.FunctionDef, ast.AsyncFunctionDef, ast.Lambda)):
            p = getattr(p, "_parent", None)
        return p

    # -- expression types ------------------------------------------------
    def env(self, f):
        return self.envs.get(f.qual, {})

    def type_of(self, e, f):
        env = self.envs.get(f.qual, {})
        return self._ty(e, f, env)

    def _ty(self, e, f, env):
        if isinstance(e, ast.Name):
            lam = self._lambda_default(e)
            if lam is not None:
                return self._ty(lam, f, env) if lam != "nodefault" else EMPTY
            if e.id in env:
                return env[e.id]
            r = self.repo.resolve_name(f.module, e.id)
            return self._resolved_to_type(r, f)
        if isinstance(e, ast.Attribute):
            return self._attr_type(self._ty(e.value, f, env), e.attr)
        if isinstance(e, ast.Call):
            return self._call_type(e, f, env)
        if isinstance(e, ast.Subscript):
            bt = self._ty(e.value, f, env)
            out = set()
            is_slice = isinstance(e.slice, ast.Slice)
            for a in bt:
                if a[0] == "list":
                    if is_slice:
                        out.add(a)
                    else:
                        out |= a[1]
                        # fancy / mask indexing keeps the container type
                        if not isinstance(e.slice, ast.Constant):
                            out.add(a)
                elif a[0] == "dict":
                    out |= a[1]
                elif a[0] == "tuple":
                    if isinstance(e.slice, ast.Constant) and isinstance(e.slice.value, int) and -len(a[1]) <= e.slice.value < len(a[1]):
                        out |= a[1][e.slice.value]
                    elif is_slice:
                        out.add(a)
                    else:
                        for t in a[1]:
                            out |= t
                elif a == USERDICT:
                    if isinstance(e.slice, ast.Constant) and e.slice.value == "fun":
                        out.add(USERCONFN)
                elif a[0] == "global":
                    out.add(a)
            return frozenset(out)
        if isinstance(e, (ast.ListComp, ast.SetComp, ast.GeneratorExp)):
            return clip_depth(mk(("list", self._ty(e.elt, f, env))))
        if isinstance(e, ast.DictComp):
            return clip_depth(mk(("dict", self._ty(e.value, f, env))))
        if isinstance(e, ast.IfExp):
            return self._ty(e.body, f, env) | self._ty(e.orelse, f, env)
        if isinstance(e, ast.BoolOp):
            out = EMPTY
            for v in e.values:
                out |= self._ty(v, f, env)
            return out
        if isinstance(e, ast.Tuple):
            return clip_depth(mk(("tuple", tuple(self._ty(x, f, env) for x in e.elts))))
        if isinstance(e, (ast.List, ast.Set)):
            out = EMPTY
            for x in e.elts:
                out |= self._ty(x, f, env)
            return clip_depth(mk(("list", out)))
        if isinstance(e, ast.Dict):
            out = EMPTY
            userfn = False
            for k, v in zip(e.keys, e.values):
                vt = self._ty(v, f, env) if v is not None else EMPTY
                out |= vt
                if isinstance(k, ast.Constant) and k.value == "fun" and (USERFN in vt or USERCONFN in vt):
                    userfn = True
            if userfn:
                return mk(USERDICT)
            return clip_depth(mk(("dict", out)))
        if isinstance(e, ast.Starred):
            return self._ty(e.value, f, env)
        if isinstance(e, ast.Lambda):
            self.lambdas[id(e)] = (e, f)
            return mk(("lambda", id(e)))
        if isinstance(e, ast.NamedExpr):
            return self._ty(e.value, f, env)
        if isinstance(e, ast.Await):
            return self._ty(e.value, f, env)
        return EMPTY

    @staticmethod
    def _lambda_default(name_node):
        """If the name is a parameter of an enclosing lambda: its default
        expression (or 'nodefault')."""
        cur = getattr(name_node, "_parent", None)
        child = name_node
        while cur is not None and not isinstance(cur, ast.stmt):
            if isinstance(cur, ast.Lambda) and child is cur.body:
                a = cur.args
                params = a.posonlyargs + a.args
                names = [p.arg for p in params]
                if name_node.id in names:
                    i = names.index(name_node.id)
                    nd = len(a.defaults)
                    j = i - (len(params) - nd)
                    if j >= 0:
                        return a.defaults[j]
                    return "nodefault"
                for p, dflt in zip(a.kwonlyargs, a.kw_defaults):
                    if p.arg == name_node.id:
                        return dflt if dflt is not None else "nodefault"
            child = cur
            cur = getattr(cur, "_parent", None)
        return None

    def _resolved_to_type(self, r, f):
        if r is None:
            return EMPTY
        k = r[0]
        if k == "func":
            return mk(("func", r[1].qual))
        if k == "class":
            return mk(("cls", r[1].name))
        if k == "module":
            return mk(("module", r[1].name))
        if k == "extmodule":
            return mk(("extmodule", r[1]))
        if k == "ext":
            return mk(("extfunc", r[1]))
        if k == "global":
            mod, name = r[1], r[2]
            val = mod.globals.get(name)
            if isinstance(val, (ast.Dict, ast.List, ast.Tuple, ast.Set, ast.Call, ast.Lambda)):
                return mk(("global", mod.name, name))
            return mk(("global", mod.name, name))
        return EMPTY

    def _attr_type(self, bt, attr):
        out = set()
        for a in bt:
            k = a[0]
            if k == "inst":
                c = self.repo.classes.get(a[1])
                if c is None:
                    continue
                if attr in c.getters:
                    out |= self.ret.get(c.getters[attr].qual, EMPTY)
                elif attr in c.methods:
                    m = c.methods[attr]
                    out.add(("func" if m.kind == "static" else "bound", m.qual))
                out |= self.attr_types.get((a[1], attr), EMPTY)
            elif k == "cls":
                c = self.repo.classes.get(a[1])
                if c is not None and attr in c.methods:
                    out.add(("func", c.methods[attr].qual))
            elif k == "module":
                r = self.repo.resolve_symbol(a[1], attr)
                out |= self._resolved_to_type(r, None)
            elif k == "extmodule":
                out.add(("extfunc", f"{a[1]}.{attr}"))
            elif k == "extfunc":
                out.add(("extfunc", f"{a[1]}.{attr}"))
            elif k == "ext":
                kind = a[1]
                if kind == "UserNLC" and attr in ("fun", "jac", "hess"):
                    out.add(USERCONFN)
                elif kind == "PreparedNL":
                    if attr == "fun":
                        out.add(VECFUN_NL)
                    elif attr == "violation":
                        out.add(("extmeth", "PreparedNL.violation"))
                elif kind == "PreparedUnknown":
                    if attr == "fun":
                        out.add(VECFUN_NL)
                    elif attr == "violation":
                        out.add(("extmeth", "PreparedUnknown.violation"))
                elif kind == "VecFunNL" and attr in ("fun", "jac", "hess"):
                    out.add(("extmeth", "VecFunNL." + attr))
                elif kind in ("PreparedLin", "PreparedBnd") and attr == "violation":
                    out.add(("extmeth", kind + ".violation"))
                elif kind == "UserDictC" and attr == "get":
                    out.add(("extmeth", "UserDictC.get"))
            elif k in ("list", "dict"):
                out.add(("listmeth", attr))
        return frozenset(out)

    def _call_type(self, call, f, env):
        ct = self._ty(call.func, f, env)
        out = set()
        if not ct and isinstance(call.func, ast.Name):
            out |= self._builtin_call_type(call.func.id, call, f, env)
        for a in ct:
            k = a[0]
            if k == "cls":
                out.add(("inst", a[1]))
            elif k in ("func", "bound"):
                out |= self.ret.get(a[1], EMPTY)
            elif k == "extfunc":
                out |= self._ext_call_type(a[1], call, f, env)
            elif k == "lambda":
                node, lf = self.lambdas.get(a[1], (None, None))
                if node is not None:
                    out |= self._ty(node.body, lf, self.envs.get(lf.qual, {}))
            elif k == "extmeth" and a[1] == "UserDictC.get":
                if call.args and isinstance(call.args[0], ast.Constant) and call.args[0].value == "fun":
                    out.add(USERCONFN)
        return frozenset(out)

    def _builtin_call_type(self, name, call, f, env):
        args = call.args
        if name == "enumerate" and args:
            return mk(("list", mk(("tuple", (EMPTY, elem(self._ty(args[0], f, env)))))))
        if name == "zip" and args:
            return mk(("list", mk(("tuple", tuple(elem(self._ty(x, f, env)) for x in args)))))
        if name in ("list", "tuple", "reversed", "sorted", "set", "iter", "frozenset") and args:
            return mk(("list", elem(self._ty(args[0], f, env))))
        if name == "dict" and args:
            return self._ty(args[0], f, env)
        if name == "next" and args:
            return elem(self._ty(args[0], f, env))
        return EMPTY

    def _ext_call_type(self, dotted, call, f, env):
        short = dotted.split(".")[-1]
        args = call.args
        if dotted in ("copy.copy", "copy.deepcopy") and args:
            return self._ty(args[0], f, env)
        if short == "NonlinearConstraint":
            return mk(USERNLC)
        if short == "LinearConstraint":
            return mk(LINC)
        if short == "Bounds":
            return mk(BOUNDSOBJ)
        if short == "OptimizeResult":
            return mk(OPTRESULT)
        if short == "PreparedConstraint":
            at = self._ty(args[0], f, env) if args else EMPTY
            out = set()
            if USERNLC in at:
                out.add(PREP_NL)
            if LINC in at or USERLC in at:
                out.add(PREP_LIN)
            if BOUNDSOBJ in at or USERBOUNDS in at:
                out.add(PREP_BND)
            if not out and self._final:
                out.add(PREP_UNK)
            return frozenset(out)
        return EMPTY

    # -- parameter propagation -------------------------------------------
    def _propagate_call(self, call, f):
        env = self.envs.get(f.qual, {})
        ct = self._ty(call.func, f, env)
        for a in ct:
            if a[0] == "cls":
                c = self.repo.classes.get(a[1])
                if c and "__init__" in c.methods:
                    self._bind_args(c.methods["__init__"], call, f, env, skip_self=True)
            elif a[0] == "bound":
                g = self.repo.funcs.get(a[1])
                if g:
                    self._bind_args(g, call, f, env, skip_self=True)
            elif a[0] == "func":
                g = self.repo.funcs.get(a[1])
                if g:
                    self._bind_args(g, call, f, env, skip_self=False)
            elif a[0] == "inst":
                c = self.repo.classes.get(a[1])
                if c and "__call__" in c.methods:
                    self._bind_args(c.methods["__call__"], call, f, env, skip_self=True)
            elif a[0] == "lambda":
                pass

    def _bind_args(self, g, call, f, env, skip_self):
        params = g.params[1:] if (skip_self and g.params) else g.params
        for i, arg in enumerate(call.args):
            if isinstance(arg, ast.Starred):
                break
            if i < len(params):
                self._add_ptype(g.qual, params[i], self._narrow(self._ty(arg, f, env), arg, call))
        for kw in call.keywords:
            if kw.arg is None:
                continue
            if kw.arg in g.params or kw.arg in g.kwonly:
                self._add_ptype(g.qual, kw.arg, self._narrow(self._ty(kw.value, f, env), kw.value, call))

    ISINSTANCE_KINDS = {
        "dict": {USERDICT},
        "LinearConstraint": {USERLC, LINC},
        "NonlinearConstraint": {USERNLC},
        "Bounds": {USERBOUNDS, BOUNDSOBJ},
    }

    def _narrow(self, t, expr, node):
        """Narrow a union type by the enclosing `isinstance(expr, C)` tests
        (true branch: only C; false / elif branches: not C)."""
        if not t or not isinstance(expr, (ast.Name, ast.Attribute)):
            return t
        txt = ast.unparse(expr)
        child = node
        cur = getattr(node, "_parent", None)
        keep = None
        drop = set()
        while cur is not None:
            if isinstance(cur, ast.If):
                tst = cur.test
                tests = tst.values if isinstance(tst, ast.BoolOp) and isinstance(tst.op, ast.And) else [tst]
                in_body = any(child is x for x in cur.body)
                in_else = any(child is x for x in cur.orelse)
                for tt in tests:
                    if isinstance(tt, ast.Call) and isinstance(tt.func, ast.Name) and tt.func.id == "isinstance" and len(tt.args) == 2 and ast.unparse(tt.args[0]) == txt:
                        cn = ast.unparse(tt.args[1]).split(".")[-1]
                        kinds = self.ISINSTANCE_KINDS.get(cn)
                        if kinds is None:
                            continue
                        if in_body:
                            keep = kinds if keep is None else (keep & kinds)
                        elif in_else and not isinstance(tst, ast.BoolOp):
                            drop |= kinds
            child = cur
            cur = getattr(cur, "_parent", None)
        out = set(t)
        if keep is not None:
            out = {a for a in out if a in keep or a[0] != "ext"}
        out = {a for a in out if a not in drop}
        return frozenset(out)

    # -- call resolution ---------------------------------------------------
    def call_targets(self, call, f):
        key = (id(call), f.qual)
        if key in self._call_cache:
            return self._call_cache[key]
        res = self._call_targets(call, f)
        self._call_cache[key] = res
        return res

    def _call_targets(self, call, f):
        env = self.envs.get(f.qual, {})
        ct = self._ty(call.func, f, env)
        out = []
        fn = call.func
        if not ct:
            if isinstance(fn, ast.Name):
                if fn.id in BUILTINS and fn.id not in env:
                    out.append(Target("builtin", fn.id, None, None))
                    out += self._userfn_arg_check(fn.id, call, f, env)
                    return out
                if isinstance(getattr(fn, "ctx", None), ast.Load) and fn.id in self._all_params(f):
                    # call of an untyped parameter: a callable handed in by a
                    # caller we could not see (tests, external users)
                    return [Target("unknown", f"param:{fn.id}", None, None)]
                return [Target("unknown", ast.unparse(fn), None, None)]
            if isinstance(fn, ast.Attribute):
                bt = self._ty(fn.value, f, env)
                if not any(a[0] in ("inst", "cls") or a in (PREP_NL, PREP_UNK, VECFUN_NL, USERNLC, USERDICT) for a in bt):
                    # method of an untyped (numpy / builtin) value
                    t = Target("ext", "method:" + fn.attr, None, None)
                    return [t] + self._userfn_arg_check("method:" + fn.attr, call, f, env)
                return [Target("unknown", ast.unparse(fn), None, None)]
            return [Target("unknown", ast.unparse(fn), None, None)]
        for a in sorted(ct, key=repr):
            k = a[0]
            if k == "cls":
                c = self.repo.classes.get(a[1])
                if c and "__init__" in c.methods:
                    out.append(Target("repo", c.methods["__init__"].qual, c.methods["__init__"], "ctor"))
                else:
                    out.append(Target("ext", "ctor:" + a[1], None, None))
            elif k in ("func", "bound"):
                g = self.repo.funcs.get(a[1])
                if g is not None:
                    out.append(Target("repo", g.qual, g, k))
            elif k == "inst":
                c = self.repo.classes.get(a[1])
                if c and "__call__" in c.methods:
                    out.append(Target("repo", c.methods["__call__"].qual, c.methods["__call__"], "call"))
                else:
                    out.append(Target("unknown", f"call of {a[1]} instance", None, None))
            elif k == "lambda":
                node, lf = self.lambdas.get(a[1], (None, None))
                out.append(Target("lambda", f"lambda@{getattr(node, 'lineno', '?')}", lf, node))
            elif k == "ext":
                if a in USER_CALLABLES:
                    out.append(Target("sink", a[1], None, ast.unparse(fn)))
                else:
                    out.append(Target("ext", "call:" + a[1], None, None))
            elif k == "extmeth":
                if a[1] in ("PreparedNL.violation", "VecFunNL.fun", "VecFunNL.jac", "VecFunNL.hess", "PreparedUnknown.violation"):
                    out.append(Target("sink", a[1], None, ast.unparse(fn)))
                else:
                    out.append(Target("ext", a[1], None, None))
            elif k == "extfunc":
                short = a[1].split(".")[-1]
                if short == "PreparedConstraint":
                    at = self._ty(call.args[0], f, env) if call.args else EMPTY
                    if USERNLC in at or not (at & {LINC, USERLC, BOUNDSOBJ, USERBOUNDS}):
                        out.append(Target("sink", "PreparedConstraint(nonlinear)", None, ast.unparse(fn)))
                    else:
                        out.append(Target("ext", a[1], None, None))
                else:
                    out.append(Target("ext", a[1], None, None))
                    out += self._userfn_arg_check(a[1], call, f, env)
            elif k == "listmeth":
                out.append(Target("ext", "container." + a[1], None, None))
            elif k == "global":
                out.append(Target("ext", f"global:{a[1]}.{a[2]}", None, None))
            elif k in ("module", "extmodule"):
                out.append(Target("unknown", ast.unparse(fn), None, None))
        if not out:
            out.append(Target("unknown", ast.unparse(fn), None, None))
        return out

    def _all_params(self, f):
        return set(f.params) | set(f.kwonly) | {f.vararg, f.kwarg}

    def _userfn_arg_check(self, name, call, f, env):
        if name in USERFN_SAFE_EXT or name.split(".")[-1] in USERFN_SAFE_EXT:
            return []
        for arg in list(call.args) + [kw.value for kw in call.keywords]:
            at = self._ty(arg, f, env)
            if USERFN in at or USERCB in at or USERCONFN in at or USERNLC in at or PREP_NL in at or VECFUN_NL in at:
                return [Target("sink", f"ext-call-with-user-callable:{name}", None, ast.unparse(call.func))]
        return []

    # -- property accesses ---------------------------------------------------
    def attr_targets(self, node, f):
        """Getter / setter functions implicitly invoked by an attribute node."""
        if not isinstance(node, ast.Attribute):
            return []
        bt = self.type_of(node.value, f)
        out = []
        for a in bt:
            if a[0] != "inst":
                continue
            c = self.repo.classes.get(a[1])
            if c is None:
                continue
            if isinstance(node.ctx, ast.Load):
                if node.attr in c.getters:
                    out.append(c.getters[node.attr])
            else:
                if node.attr in c.setters:
                    out.append(c.setters[node.attr])
                par = getattr(node, "_parent", None)
                if isinstance(par, ast.AugAssign) and par.target is node and node.attr in c.getters:
                    out.append(c.getters[node.attr])
        return out
