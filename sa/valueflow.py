"""Backward value-flow ("where does this value come from") over locals,
parameters (through every call site), return values, instance fields and
container elements.  Flow-sensitive for local variables (reaching
definitions), flow-insensitive for fields.

origins(expr, func) returns a set of Origin(kind, detail, ops):
  kind   'src'   result of a designated source function (detail = qual)
         'api'   parameter of a function without internal callers
         'new'   allocation / literal / arithmetic without array operands
         'ext'   result of an external call that is not value preserving
         'field' field with no visible store
  ops    frozenset of what happened on the way from the origin to the use:
         'arith' (arithmetic), 'clip' (clipping / projection), 'elem'
         (element or slice taken), 'conv' (copy / dtype conversion)
"""
from __future__ import annotations

import ast
from collections import namedtuple

from .astutil import norm, dotted, enclosing_stmt
from . import tables as T

STEP_BUDGET = 1_000_000   # the reference tree needs about 27 000 steps

Origin = namedtuple("Origin", "kind detail ops")

COPY_FUNCS = {
    "array", "asarray", "copy", "atleast_1d", "atleast_2d", "squeeze", "asarray_chkfinite",
    "ascontiguousarray", "ravel", "float", "asfarray", "real", "nan_to_num", "exact_1d_array",
    "exact_2d_array", "list", "tuple", "deepcopy",
}
COPY_METHODS = {"copy", "astype", "ravel", "flatten", "view", "squeeze", "item", "tolist"}
CLIP_FUNCS = {"clip", "minimum", "maximum", "fmin", "fmax"}
ALLOC_FUNCS = {"zeros", "ones", "empty", "full", "zeros_like", "ones_like", "empty_like", "full_like", "eye", "arange", "linspace"}
STACK_FUNCS = {"block", "concatenate", "vstack", "hstack", "r_", "c_", "stack"}


def arg_for(call, g, p, detail):
    """Expression bound to parameter p of g at this call (None = omitted,
    'unknown' = hidden behind * / **)."""
    params = g.params
    if detail in ("bound", "ctor", "call") and params:
        params = params[1:]
    for kw in call.keywords:
        if kw.arg == p:
            return kw.value
    if p in params:
        i = params.index(p)
        if i < len(call.args):
            for a in call.args[: i + 1]:
                if isinstance(a, ast.Starred):
                    return "unknown"
            return call.args[i]
        if any(isinstance(a, ast.Starred) for a in call.args):
            return "unknown"
    if any(kw.arg is None for kw in call.keywords):
        return "unknown"
    return None


class ValueFlow:
    def __init__(self, ctx, sources=(T.BUILD_X,), live=None, max_depth=40, param_stop=()):
        self.ctx = ctx
        self.sources = set(sources)
        self.param_stop = set(param_stop)
        self.live = live
        self.max_depth = max_depth
        self._rd = {}
        self._memo = {}
        self._cuts = 0
        self._steps = 0
        self._sites = {}
        for evs in ctx.cg.events.values():
            for ev in evs:
                if ev.kind != "call":
                    continue
                if live is not None and live.is_dead(ev):
                    continue
                for t in ev.targets:
                    if t.kind == "repo":
                        self._sites.setdefault(t.name, []).append((ev, t))
        self._index_field_stores()

    # -- field stores ----------------------------------------------------------
    def _index_field_stores(self):
        self.field_stores = {}
        res = self.ctx.res
        for f in self.ctx.repo.funcs.values():
            for node in ast.walk(f.node):
                if isinstance(node, ast.Assign):
                    for t in node.targets:
                        self._store_target(t, node.value, f)
                elif isinstance(node, ast.AugAssign):
                    self._store_target(node.target, node.value, f, aug=True)
                elif isinstance(node, ast.AnnAssign) and node.value is not None:
                    self._store_target(node.target, node.value, f)
                elif isinstance(node, ast.Call) and isinstance(node.func, ast.Attribute):
                    if node.func.attr in ("append", "insert", "extend", "add") and node.args:
                        base = node.func.value
                        if isinstance(base, ast.Attribute):
                            for a in res.type_of(base.value, f):
                                if a[0] == "inst":
                                    self.field_stores.setdefault((a[1], base.attr), []).append((node.args[-1], f, "elem"))

    def _store_target(self, t, value, f, aug=False):
        res = self.ctx.res
        if isinstance(t, (ast.Tuple, ast.List)):
            for i, el in enumerate(t.elts):
                if isinstance(value, (ast.Tuple, ast.List)) and len(value.elts) == len(t.elts):
                    self._store_target(el, value.elts[i], f)
                else:
                    self._store_target(el, ("tuple_elem", value, i), f)
            return
        if isinstance(t, ast.Attribute):
            for a in res.type_of(t.value, f):
                if a[0] == "inst":
                    c = self.ctx.repo.classes.get(a[1])
                    if c is not None and t.attr in c.setters:
                        # property setter: the value goes to the setter's param
                        continue
                    self.field_stores.setdefault((a[1], t.attr), []).append((value, f, "aug" if aug else "whole"))
        elif isinstance(t, ast.Subscript):
            base = t.value
            # X.attr[...] = v   (through a getter too: self.xl[mask] = ...)
            if isinstance(base, ast.Attribute):
                for a in res.type_of(base.value, f):
                    if a[0] == "inst":
                        for fld in self._backing_fields(a[1], base.attr):
                            self.field_stores.setdefault(fld, []).append((value, f, "elem"))

    def _backing_fields(self, cls, attr):
        """(cls, attr) itself, or the field a trivial getter returns."""
        c = self.ctx.repo.classes.get(cls)
        if c is not None and attr in c.getters:
            g = c.getters[attr]
            out = []
            for node in ast.walk(g.node):
                if isinstance(node, ast.Return) and isinstance(node.value, ast.Attribute) and isinstance(node.value.value, ast.Name) and node.value.value.id == g.self_name:
                    out.append((cls, node.value.attr))
            return out or [(cls, attr)]
        return [(cls, attr)]

    # -- helpers -----------------------------------------------------------------
    def rd(self, f):
        r = self._rd.get(f.qual)
        if r is None:
            r = self.ctx.cfg(f).reaching_defs()
            self._rd[f.qual] = r
        return r

    def returns(self, g):
        out = []
        for node in ast.walk(g.node):
            if isinstance(node, ast.Return) and node.value is not None:
                if self.ctx.res._owner(node) is g.node:
                    out.append(node.value)
        return out

    # -- main ----------------------------------------------------------------------
    def origins(self, expr, f, at=None):
        """`at`: AST node giving the program point of the use (defaults to expr)."""
        return self._o(expr, f, at if at is not None else expr, 0, frozenset())

    def _add_ops(self, origs, *ops):
        return {Origin(o.kind, o.detail, o.ops | frozenset(ops)) for o in origs}

    def _o(self, e, f, at, depth, stack):
        if depth > self.max_depth:
            return {Origin("ext", "depth-limit", frozenset())}
        if isinstance(e, tuple) and e and e[0] == "tuple_elem":
            return self._tuple_elem(e[1], e[2], f, at, depth, stack)
        key = (id(e), f.qual, id(at) if isinstance(e, ast.Name) else 0)
        if key in stack:
            self._cuts += 1
            return set()
        if key in self._memo:
            return self._memo[key]
        stack = stack | {key}
        before = self._cuts
        res = self._o2(e, f, at, depth, stack)
        if self._cuts == before:
            self._memo[key] = res
        return res

    def _o2(self, e, f, at, depth, stack):
        d = depth + 1
        self._steps += 1
        if self._steps > STEP_BUDGET:
            # results reached through a cycle are not memoised; on some shapes the walk
            # blows up - stop with an honest "cannot decide" instead of running for hours
            from .loader import AnalysisError
            raise AnalysisError(f"value-flow analysis exceeded its step budget ({STEP_BUDGET}) while resolving `{norm(e)[:40] if isinstance(e, ast.AST) else e}` in {f.qual}")
        if isinstance(e, ast.Name):
            return self._name(e.id, f, at, d, stack)
        if isinstance(e, ast.Constant):
            return {Origin("new", repr(e.value)[:30], frozenset())}
        if isinstance(e, ast.Attribute):
            return self._attribute(e, f, at, d, stack)
        if isinstance(e, ast.Subscript):
            return self._add_ops(self._o(e.value, f, at, d, stack), "elem")
        if isinstance(e, ast.Call):
            return self._call(e, f, at, d, stack)
        if isinstance(e, ast.BinOp):
            l = self._o(e.left, f, at, d, stack)
            r = self._o(e.right, f, at, d, stack)
            return self._add_ops(l | r, "arith")
        if isinstance(e, ast.UnaryOp):
            return self._add_ops(self._o(e.operand, f, at, d, stack), "arith")
        if isinstance(e, ast.IfExp):
            return self._o(e.body, f, at, d, stack) | self._o(e.orelse, f, at, d, stack)
        if isinstance(e, ast.BoolOp):
            out = set()
            for v in e.values:
                out |= self._o(v, f, at, d, stack)
            return out
        if isinstance(e, (ast.Tuple, ast.List, ast.Set)):
            out = set()
            for v in e.elts:
                out |= self._o(v, f, at, d, stack)
            return out or {Origin("new", "empty-literal", frozenset())}
        if isinstance(e, ast.Starred):
            return self._o(e.value, f, at, d, stack)
        if isinstance(e, (ast.ListComp, ast.GeneratorExp, ast.SetComp)):
            return self._o(e.elt, f, at, d, stack)
        if isinstance(e, ast.Compare):
            return {Origin("new", "comparison", frozenset())}
        if isinstance(e, ast.NamedExpr):
            return self._o(e.value, f, at, d, stack)
        if isinstance(e, (ast.JoinedStr, ast.Dict, ast.Lambda)):
            return {Origin("new", type(e).__name__, frozenset())}
        return {Origin("ext", norm(e)[:40], frozenset())}

    # -- names -----------------------------------------------------------------------
    def _name(self, name, f, at, d, stack):
        cfg = self.ctx.cfg(f)
        nid = cfg.node_containing(at)
        out = set()
        if nid is None:
            # inside a lambda / comprehension scope: fall back to all defs
            defs = None
        else:
            defs = self.rd(f).get(nid, {}).get(name)
        comp = self._comprehension_binding(name, at)
        if comp is not None:
            return self._add_ops(self._o(comp.iter, f, at, d, stack), "elem")
        if defs is None:
            if name in f.params or name in f.kwonly:
                defs = frozenset({cfg.entry})
            else:
                # module-level name or unknown
                r = self.ctx.repo.resolve_name(f.module, name)
                if r is not None and r[0] == "global":
                    return {Origin("new", f"global:{name}", frozenset())}
                if r is not None:
                    return {Origin("new", f"symbol:{name}", frozenset())}
                # all assignments in the function (flow-insensitive fallback)
                defs = frozenset(
                    n.id for n in cfg.nodes
                    if name in __import__("sa.cfg", fromlist=["defs_of"]).defs_of(n)
                )
                if not defs:
                    return {Origin("ext", f"unbound:{name}", frozenset())}
        for dn in defs:
            if dn == cfg.entry:
                out |= self._param(f, name, d, stack)
                continue
            out |= self._def_value(cfg.nodes[dn], name, f, d, stack)
        return out

    @staticmethod
    def _comprehension_binding(name, at):
        cur = at
        while cur is not None and not isinstance(cur, ast.stmt):
            if isinstance(cur, (ast.ListComp, ast.SetComp, ast.GeneratorExp, ast.DictComp)):
                for g in cur.generators:
                    for n in ast.walk(g.target):
                        if isinstance(n, ast.Name) and n.id == name:
                            return g
            cur = getattr(cur, "_parent", None)
        return None

    def _def_value(self, node, name, f, d, stack):
        key = ("def", node.id, name, f.qual)
        if key in stack:
            self._cuts += 1
            return set()
        if key in self._memo:
            return self._memo[key]
        stack = stack | {key}
        if d > self.max_depth:
            return {Origin("ext", "depth-limit", frozenset())}
        before = self._cuts
        res = self._def_value2(node, name, f, d + 1, stack)
        if self._cuts == before:
            self._memo[key] = res
        return res

    def _def_value2(self, node, name, f, d, stack):
        s = node.ast
        if node.kind == "for":
            return self._add_ops(self._o(s.iter, f, s.iter, d, stack), "elem")
        if node.kind == "with":
            for it in s.items:
                if it.optional_vars is not None and name in {n.id for n in ast.walk(it.optional_vars) if isinstance(n, ast.Name)}:
                    return self._o(it.context_expr, f, it.context_expr, d, stack)
            return set()
        if node.kind == "handler":
            return {Origin("new", "exception", frozenset())}
        if isinstance(s, ast.Assign):
            out = set()
            for t in s.targets:
                out |= self._target_value(t, s.value, name, f, s, d, stack)
            return out
        if isinstance(s, ast.AugAssign):
            out = set()
            t = s.target
            if isinstance(t, ast.Name) and t.id == name:
                prev = self._prev_value(name, f, node, d, stack)
                out |= self._add_ops(prev | self._o(s.value, f, s, d, stack), "arith")
            else:
                # element store x[i] += v : weak update
                out |= self._prev_value(name, f, node, d, stack)
                out |= self._add_ops(self._o(s.value, f, s, d, stack), "elem")
            return out
        if isinstance(s, ast.AnnAssign) and s.value is not None:
            return self._target_value(s.target, s.value, name, f, s, d, stack)
        if isinstance(s, ast.Expr) and isinstance(s.value, ast.Call) and isinstance(s.value.func, ast.Attribute) and isinstance(s.value.func.value, ast.Name) and s.value.func.value.id == name:
            # local container mutation: previous content + the new element(s)
            out = self._prev_value(name, f, node, d, stack)
            if s.value.func.attr in ("append", "extend", "insert", "add", "update", "setdefault"):
                for a in s.value.args:
                    out |= self._add_ops(self._o(a, f, s, d, stack), "elem")
            return out
        for sub in ast.walk(s) if isinstance(s, ast.AST) else []:
            if isinstance(sub, ast.NamedExpr) and isinstance(sub.target, ast.Name) and sub.target.id == name:
                return self._o(sub.value, f, s, d, stack)
        return {Origin("ext", f"def:{norm(s)[:40]}", frozenset())}

    def _prev_value(self, name, f, node, d, stack):
        """Origins of `name` just before CFG node `node`."""
        cfg = self.ctx.cfg(f)
        defs = self.rd(f).get(node.id, {}).get(name, frozenset())
        out = set()
        for dn in defs:
            if dn == node.id:
                continue
            if dn == cfg.entry:
                out |= self._param(f, name, d, stack)
            else:
                out |= self._def_value(cfg.nodes[dn], name, f, d, stack)
        return out

    def _target_value(self, t, value, name, f, stmt, d, stack):
        if isinstance(t, ast.Name):
            if t.id == name:
                return self._o(value, f, stmt, d, stack)
            return set()
        if isinstance(t, (ast.Tuple, ast.List)):
            out = set()
            for i, el in enumerate(t.elts):
                if isinstance(el, ast.Starred):
                    el = el.value
                if name not in {n.id for n in ast.walk(el) if isinstance(n, ast.Name)}:
                    continue
                if isinstance(value, (ast.Tuple, ast.List)) and len(value.elts) == len(t.elts):
                    out |= self._target_value(el, value.elts[i], name, f, stmt, d, stack)
                else:
                    if isinstance(el, ast.Name):
                        out |= self._tuple_elem(value, i, f, stmt, d, stack)
                    else:
                        out |= self._add_ops(self._tuple_elem(value, i, f, stmt, d, stack), "elem")
            return out
        if isinstance(t, ast.Subscript):
            base = t
            while isinstance(base, (ast.Subscript, ast.Attribute)):
                base = base.value
            if isinstance(base, ast.Name) and base.id == name:
                # weak update: previous value + stored element
                cfg = self.ctx.cfg(f)
                nid = cfg.node_of(stmt)
                prev = self._prev_value(name, f, cfg.nodes[nid], d, stack) if nid is not None else set()
                return prev | self._add_ops(self._o(value, f, stmt, d, stack), "elem")
        return set()

    def _tuple_elem(self, value, i, f, at, d, stack):
        """Origins of the i-th element of the tuple-valued expression."""
        if isinstance(value, (ast.Tuple, ast.List)) and i < len(value.elts):
            return self._o(value.elts[i], f, at, d, stack)
        if isinstance(value, ast.Call):
            out = set()
            hit = False
            for t in self.ctx.res.call_targets(value, f):
                if t.kind == "repo" and t.detail != "ctor":
                    hit = True
                    if t.name in self.sources:
                        out.add(Origin("src", t.name, frozenset({"elem"})))
                        continue
                    for r in self.returns(t.func):
                        if isinstance(r, ast.Tuple) and i < len(r.elts):
                            out |= self._o(r.elts[i], t.func, r, d, stack)
                        else:
                            out |= self._add_ops(self._o(r, t.func, r, d, stack), "elem")
            if hit:
                return out
        return self._add_ops(self._o(value, f, at, d, stack), "elem")

    def _param(self, f, name, d, stack):
        if name == f.self_name:
            return {Origin("new", "self", frozenset())}
        if f.qual in self.param_stop:
            return {Origin("param", f"{f.local}.{name}", frozenset())}
        sites = self._sites.get(f.qual, [])
        if name in (f.vararg, f.kwarg):
            return {Origin("api", f"{f.local}.*{name}", frozenset())}
        if not sites:
            return {Origin("api", f"{f.local}.{name}", frozenset())}
        out = set()
        for ev, t in sites:
            a = arg_for(ev.node, f, name, t.detail)
            if a is None:
                dflt = f.defaults.get(name)
                if dflt is not None:
                    out.add(Origin("new", f"default:{norm(dflt)[:20]}", frozenset()))
                continue
            if a == "unknown":
                out.add(Origin("ext", f"starred-arg:{f.local}.{name}", frozenset()))
                continue
            out |= self._o(a, ev.func, a, d, stack)
        return out

    # -- attributes -------------------------------------------------------------------
    def _attribute(self, e, f, at, d, stack):
        res = self.ctx.res
        bt = res.type_of(e.value, f)
        out = set()
        hit = False
        for a in bt:
            if a[0] != "inst":
                continue
            c = self.ctx.repo.classes.get(a[1])
            if c is None:
                continue
            if e.attr in c.getters:
                hit = True
                g = c.getters[e.attr]
                if g.qual in self.sources:
                    out.add(Origin("src", g.qual, frozenset()))
                    continue
                for r in self.returns(g):
                    out |= self._o(r, g, r, d, stack)
                continue
            stores = self.field_stores.get((a[1], e.attr))
            if stores:
                hit = True
                for value, sf, how in stores:
                    o = self._o(value, sf, value if isinstance(value, ast.AST) else at, d, stack)
                    if how in ("elem", "aug"):
                        o = self._add_ops(o, "elem" if how == "elem" else "arith")
                    out |= o
            elif e.attr in c.methods:
                hit = True
                out.add(Origin("new", f"method:{a[1]}.{e.attr}", frozenset()))
        if hit:
            return out
        # attribute of an external / untyped value: derived from the base
        base = self._o(e.value, f, at, d, stack)
        if e.attr in ("T", "real", "flat"):
            return base
        if e.attr in ("size", "shape", "ndim", "dtype"):
            return {Origin("new", f"meta:{e.attr}", frozenset())}
        return self._add_ops(base, "elem")

    # -- calls --------------------------------------------------------------------------
    def _call(self, e, f, at, d, stack):
        res = self.ctx.res
        targets = res.call_targets(e, f)
        out = set()
        for t in targets:
            if t.kind == "repo":
                if t.name in self.sources:
                    out.add(Origin("src", t.name, frozenset()))
                    continue
                if t.detail == "ctor":
                    out.add(Origin("new", f"instance:{t.name}", frozenset()))
                    continue
                g = t.func
                short = g.name
                if short in COPY_FUNCS and e.args:
                    out |= self._add_ops(self._o(e.args[0], f, at, d, stack), "conv")
                    continue
                if g.cls is not None and g.name == "project" and e.args:
                    out |= self._add_ops(self._o(e.args[0], f, at, d, stack), "clip")
                    continue
                rets = self.returns(g)
                if not rets:
                    out.add(Origin("new", f"none:{g.local}", frozenset()))
                for r in rets:
                    out |= self._o(r, g, r, d, stack)
            elif t.kind == "lambda" and t.detail is not None:
                out |= self._o(t.detail.body, t.func, t.detail.body, d, stack)
            elif t.kind in ("ext", "builtin"):
                name = t.name
                short = name.split(".")[-1].split(":")[-1]
                if isinstance(e.func, ast.Attribute) and name.startswith("method:"):
                    meth = e.func.attr
                    if meth in COPY_METHODS:
                        out |= self._add_ops(self._o(e.func.value, f, at, d, stack), "conv")
                    elif meth in ("clip",):
                        out |= self._add_ops(self._o(e.func.value, f, at, d, stack), "clip")
                    elif meth in ("get", "pop", "setdefault"):
                        o = self._add_ops(self._o(e.func.value, f, at, d, stack), "elem")
                        for a in e.args[1:]:
                            o |= self._o(a, f, at, d, stack)
                        out |= o
                    elif meth in ("dot", "sum", "mean", "max", "min", "reshape", "transpose"):
                        out |= self._add_ops(self._o(e.func.value, f, at, d, stack), "arith")
                    else:
                        out.add(Origin("ext", f"{name}", frozenset()))
                elif short in COPY_FUNCS and e.args:
                    out |= self._add_ops(self._o(e.args[0], f, at, d, stack), "conv")
                elif short in CLIP_FUNCS and e.args:
                    if short == "clip":
                        out |= self._add_ops(self._o(e.args[0], f, at, d, stack), "clip")
                    else:
                        o = set()
                        for a in e.args[:2]:
                            o |= self._o(a, f, at, d, stack)
                        out |= self._add_ops(o, "clip")
                elif short in ALLOC_FUNCS:
                    out.add(Origin("new", f"alloc:{short}", frozenset()))
                elif short in STACK_FUNCS and e.args:
                    out |= self._add_ops(self._o(e.args[0], f, at, d, stack), "elem")
                elif short in ("broadcast_arrays", "where") and e.args:
                    o = set()
                    for a in e.args:
                        o |= self._o(a, f, at, d, stack)
                    out |= self._add_ops(o, "elem")
                elif short == "OptimizeResult":
                    out.add(Origin("new", "OptimizeResult", frozenset()))
                else:
                    out.add(Origin("ext", name, frozenset()))
            elif t.kind == "sink":
                out.add(Origin("ext", "user:" + t.name, frozenset()))
            else:
                out.add(Origin("ext", "unknown:" + t.name, frozenset()))
        return out
