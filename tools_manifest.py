#!/venv/bin/python
"""Regenerates MANIFEST.json from the table below (keeps it valid)."""
import json, os
HERE = os.path.dirname(os.path.abspath(__file__))
CLAIMS = {}
NA = {}
exec(open(os.path.join(HERE, "claims.py")).read())
checks = []
for pid in sorted(CLAIMS):
    c = CLAIMS[pid]
    checks.append({
        "property_id": pid,
        "quick_cmd": f"./check {pid} --tier quick",
        "thorough_cmd": f"./check {pid} --tier thorough",
        "evidence_file": f"/verif/evidence/{pid}.json",
        "replay_cmd_template": f"./check {pid} --replay {{path}}",
        "engine": "sa",
        "level_claimed": {"category": "other", "text": c["text"], "design_ref": f"DESIGN.md section 4, {pid}"},
        "level_note": c["note"],
        "technique": c["technique"],
    })
na = [{"property_id": k, "reason": v} for k, v in sorted(NA.items())]
all_ids = {"C%02d" % i for i in range(1, 21)}
missing = all_ids - set(CLAIMS) - set(NA)
for k in sorted(missing):
    na.append({"property_id": k, "reason": "check under construction in this round (see DESIGN.md section 4 for the planned rules)"})
m = {
    "version": 1,
    "setup_cmd": "/venv/bin/python -B -c \"import sys; sys.path.insert(0, '/verif'); import sa.main, sa.engine, sa.facts, sa.valueflow\"",
    "hooks": {
        "guard": "COBYQA_VERIF",
        "enable": "no hooks: the checks read /repo's source text only (ast), nothing is built or instrumented",
        "baseline_off_cmd": "cd /repo && /venv/bin/python -m pytest -ra -q -p no:cacheprovider --timeout=900 --continue-on-collection-errors",
        "source_commits": [],
        "add_only": True,
    },
    "engines": [{"name": "sa", "path": "/verif/sa", "serves_properties": sorted(CLAIMS), "kind_free_text": "repository-specific static analysis on Python ast: nominal type inference + resolved call graph, statement CFGs with dominators/reaching definitions, backward value flow, exception-escape analysis, finite decision-table and guard-table extractors"}],
    "checks": checks,
    "not_applicable": na,
    "notes": "All checks are static (source only). Exit 0 = all obligations discharged; exit 1 + VIOLATION line = finding not listed in known_findings.json; exit 2 + ANALYSIS-ERROR = the analysis could not be carried out (anchor vanished, unknown shape).",
}
json.dump(m, open(os.path.join(HERE, "MANIFEST.json"), "w"), indent=1)
print("claims", len(checks), "na", len(na))
