import json, glob, sys
import jsonschema
jsonschema.validate(json.load(open('/verif/MANIFEST.json')), json.load(open('/root/.vp/MANIFEST.schema.json')))
s = json.load(open('/root/.vp/EVIDENCE.schema.json'))
n = 0
for f in sorted(glob.glob('/verif/evidence/*.json')):
    jsonschema.validate(json.load(open(f)), s); n += 1
print('manifest ok; evidence files valid:', n)
